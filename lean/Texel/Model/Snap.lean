import Texel.Model.Ring
import Texel.Model.Route

/-! Core-only executable model of the rest of snapping (after the F1 and F4 repairs):
    grid, point index, routing (`snapLevel`), hit bookkeeping, ring assembly, dedupeInnersOuters,
    matchInnersToPolygons, SnapPolygon. Coordinates are `Int` (units of 1e-10); pixels are index pairs. -/

namespace Texel

/-! ### geometry on pixel indices (exact) -/

def shoelaceAbs2 (r : Array P) : Int := Id.run do      -- 2·|area|
  if r.size == 0 then return 0
  let mut sum : Int := 0
  let mut p0 := r[r.size - 1]!
  for p1 in r do
    sum := sum + (p0.2 * p1.1 - p0.1 * p1.2)
    p0 := p1
  return sum.natAbs

/-- orb's RayIntersect with the "nextafter" nudge modelled as an infinitesimal shift to the right -/
def rayIntersect (pt s0 e0 : P) : Bool × Bool :=     -- (intersects, on)
  let (s, e) := if s0.1 > e0.1 then (e0, s0) else (s0, e0)
  -- stage 1: equalities with start / end
  let r : Option (Bool × Bool) × Bool :=   -- (early result, nudged)
    if pt.1 == s.1 then
      if pt.2 == s.2 then (some (false, true), false)
      else if s.1 == e.1 then
        if s.2 > e.2 && s.2 ≥ pt.2 && pt.2 ≥ e.2 then (some (false, true), false)
        else if e.2 > s.2 && e.2 ≥ pt.2 && pt.2 ≥ s.2 then (some (false, true), false)
        else (none, true)
      else (none, true)
    else if pt.1 == e.1 then
      if pt.2 == e.2 then (some (false, true), false) else (none, true)
    else (none, false)
  match r with
  | (some res, _) => res
  | (none, nudged) =>
    -- pt.x (+ε if nudged) < s.x  or  > e.x
    let ltS := pt.1 < s.1
    let gtE := if nudged then pt.1 ≥ e.1 else pt.1 > e.1
    if ltS || gtE then (false, false)
    else
      let early : Option (Bool × Bool) :=
        if s.2 > e.2 then
          if pt.2 > s.2 then some (false, false) else if pt.2 < e.2 then some (true, false) else none
        else
          if pt.2 > e.2 then some (false, false) else if pt.2 < s.2 then some (true, false) else none
      match early with
      | some res => res
      | none =>
        -- rs = (pt.y - s.y)/(pt.x(+ε) - s.x),  ds = (e.y - s.y)/(e.x - s.x);  here s.x ≤ pt.x(+ε) ≤ e.x and s.x < e.x or nudged
        let dx := pt.1 - s.1
        let ex := e.1 - s.1
        if dx == 0 then
          -- nudged with pt.x = s.x: rs = ±∞ (or 0/ε = 0 if pt.y = s.y, excluded above)
          if ex == 0 then
            -- vertical edge, pt.x = s.x = e.x, nudged ⇒ pt.x+ε > e.x ⇒ handled by gtE above
            (false, false)
          else
            let num := pt.2 - s.2
            if num < 0 then (true, false) else if num > 0 then (false, false) else (decide ((0:Int) ≤ (e.2 - s.2) * 1), false)
        else
          -- ordinary: compare (pt.y - s.y)/dx with (e.y - s.y)/ex, dx > 0, ex > 0 (nudge is irrelevant when dx > 0)
          let lhs := (pt.2 - s.2) * ex
          let rhs := (e.2 - s.2) * dx
          if lhs == rhs then (false, true) else (decide (lhs ≤ rhs), false)

def ringContains (ring : Array P) (pt : P) : Bool × Bool := Id.run do
  let (c0, on0) := rayIntersect pt ring[0]! ring[ring.size - 1]!
  if on0 then return (true, true)
  let mut c := c0
  for i in [0 : ring.size - 1] do
    let (ix, on) := rayIntersect pt ring[i]! ring[i + 1]!
    if on then return (true, true)
    if ix then c := !c
  return (c, false)

/-! ### dedupeInnersOuters -/

def ringsAreEqual (ri rj : Array P) (iOuter jOuter : Bool) : Except String Bool := do
  let n := ri.size
  if n != rj.size then return false
  if n == 0 then throw "index out of range (ringsAreEqual)"
  match rj.idxOf? ri[0]! with
  | none => return false
  | some idx =>
    let diff := iOuter && !jOuter
    for k in [0 : n] do
      if !diff && ri[k]! != rj[(idx + k) % n]! then return false
      if diff && ri[k]! != rj[(idx + n - k) % n]! then return false
    return true

def dedupeInnersOuters (outers inners : Array (Array P)) : Except String (Array (Array P) × Array (Array P)) := do
  let lo := outers.size
  let all := lo + inners.size
  let ringAt (i : Nat) : Array P := if i < lo then outers[i]! else inners[i - lo]!
  let mut processed : Array Nat := #[]
  let mut toDelete : Array Nat := #[]
  for i in [0 : all] do
    if processed.contains i then continue
    let iOuter := i < lo
    let mut equal : Array (Nat × Bool) := #[(i, iOuter)]
    for j in [i + 1 : all] do
      if processed.contains j then continue
      let jOuter := j < lo
      if !(← ringsAreEqual (ringAt i) (ringAt j) iOuter jOuter) then continue
      equal := equal.push (j, jOuter)
    if equal.size ≤ 1 then continue
    let nO := (equal.filter (·.2)).size
    let nI := (equal.filter (!·.2)).size
    let mut delO := 0
    let mut delI := 0
    if nO == nI then
      delO := nO - 1; delI := nI - 1
    else
      delO := min nO nI; delI := delO
    for (e, isO) in equal do
      processed := processed.push e
      if isO && delO > 0 then
        toDelete := toDelete.push e; delO := delO - 1
      else if !isO && delI > 0 then
        toDelete := toDelete.push e; delI := delI - 1
  if toDelete.size == 0 then return (outers, inners)
  let mut no := #[]
  for i in [0 : lo] do if !toDelete.contains i then no := no.push outers[i]!
  let mut ni := #[]
  for i in [0 : inners.size] do if !toDelete.contains (i + lo) then ni := ni.push inners[i]!
  return (no, ni)

/-! ### matchInnersToPolygons -/

/-- go-sortedmap with `i > j` (descending), ties after equals -/
def sortPolyIdxsByOuterAreaDesc (polys : Array (Array (Array P))) : Array Nat := Id.run do
  let mut sorted : Array (Nat × Int) := #[]
  for i in [0 : polys.size] do
    let a : Int := if polys[i]!.size == 0 then 0 else shoelaceAbs2 polys[i]![0]!
    -- first position where less(val, existing) i.e. a > existing (binary search on a sorted slice = first such index)
    let mut pos := sorted.size
    let mut lo := 0
    let mut hi := sorted.size
    while lo < hi do
      let h := (lo + hi) / 2
      if !(a > sorted[h]!.2) then lo := h + 1 else hi := h
    pos := lo
    sorted := (sorted.extract 0 pos).push (i, a) ++ sorted.extract pos sorted.size
  return sorted.map (·.1)

def matchInnersToPolygons (polys0 : Array (Array (Array P))) (inners : Array (Array P)) : Array (Array (Array P)) := Id.run do
  if inners.size == 0 then return polys0
  let mut polys := polys0
  let mut sortedIdx : Option (Array Nat) := none
  let mut turned : Array (Array P) := #[]
  for inner in inners do
    let mut counts : Array (Nat × Nat) := #[]      -- ordered map polyI ↦ count (insertion order)
    let mut matched := false
    for v in inner do
      for pi in [0 : polys.size] do
        let (cont, _) := ringContains polys[pi]![0]! v
        if cont then
          if counts.any (·.1 == pi) then counts := counts.map (fun e => if e.1 == pi then (pi, e.2 + 1) else e)
          else counts := counts.push (pi, 1)
      -- FindLastKeyWithMaxValue: iterate from newest to oldest
      let mut first := true
      let mut maxK := 0
      let mut maxV := 0
      let mut winners := 0
      for e in counts.reverse do
        if first || e.2 > maxV then
          maxK := e.1; maxV := e.2; winners := 1; first := false
        else if e.2 == maxV then winners := winners + 1
      if winners == 1 then
        polys := polys.set! maxK (polys[maxK]!.push inner)
        matched := true
        break
    if matched then continue
    if counts.size == 0 then
      turned := turned.push inner.reverse
      continue
    let si := match sortedIdx with
      | some s => s
      | none => sortPolyIdxsByOuterAreaDesc polys
    sortedIdx := some si
    -- LastMatch(haystack = si, needle = keys of counts)
    let keys := counts.map (·.1)
    let mut chosen := 0
    for i in [0 : si.size] do
      let k := si[si.size - 1 - i]!
      if keys.contains k then
        chosen := k
        break
    polys := polys.set! chosen (polys[chosen]!.push inner)
  for t in turned do polys := polys.push #[t]
  return polys

/-! ### SnapPolygon -/

structure Config where (keep reverse : Bool) (ignoreOutside : Bool := false) deriving Repr

/-- exact orientation of an input ring (coordinates translated to the first vertex, as `winding.Orientation` does) -/
def ensureCorrectWindingOrder (ring : Array Pt) (shouldBeCW : Bool) : Array Pt :=
  if windingOK (ring.map fun p => (p.x, p.y)) shouldBeCW then ring else ring.reverse

abbrev HitMap := Array (P × Array Nat)
def HitMap.get (m : HitMap) (p : P) : Array Nat := ((m.find? (·.1 == p)).map (·.2)).getD #[]
def HitMap.add (m : HitMap) (p : P) (r : Nat) : HitMap :=
  if m.any (·.1 == p) then m.map (fun e => if e.1 == p then (p, e.2.push r) else e) else m.push (p, #[r])

structure LevelState where
  level : Nat
  alive : Bool := true
  hitOnce : HitMap := #[]
  hitMultiple : HitMap := #[]
  outers : Array (Array P) := #[]
  inners : Array (Array P) := #[]
  pls : Array (Array P) := #[]

instance : Inhabited LevelState := ⟨{ level := 0 }⟩

/-- the routed boundary (C02): per requested level and per ring the joined chain of routed edges
    (orientation normalised, `cleanupNewVertices` applied, closing vertex dropped as `cleanupNewRing` does) -/
def routedChains (g : Grid) (rings : Array (Array Pt)) (levels : List Nat) : Except String (List (Nat × Array (Array P))) := do
  let mut addrs : List Quad := []
  for r in rings do
    for v in r do
      match deepestAddr g v with
      | none => throw "outside-grid"
      | some a => addrs := a :: addrs
  let hot := hotOf g addrs
  let mut out : List (Nat × Array (Array P)) := []
  for l in levels do
    let mut chains : Array (Array P) := #[]
    for ringIdx in [0 : rings.size] do
      let ring := ensureCorrectWindingOrder rings[ringIdx]! (ringIdx != 0)
      let n := ring.size
      let mut cur : Array P := #[]
      for vi in [0 : n] do
        let seg : Seg := ⟨ring[vi]!, ring[(vi + 1) % n]!⟩
        let quads : Array P := (snapLevel lineIntersects g hot seg l).toArray.map fun q => ((q.x : Int), (q.y : Int))
        if quads.size == 0 then throw "no points found"
        let minus := min (quads.size - 1) 1
        let mut nv := quads.extract 0 (quads.size - minus)
        if cur.size > 0 && nv[0]! == cur[cur.size - 1]! then nv := nv.extract 1 nv.size
        cur := cur ++ nv
      if cur.size > 1 && cur[0]! == cur[cur.size - 1]! then cur := cur.extract 0 (cur.size - 1)
      chains := chains.push cur
    out := out ++ [(l, chains)]
  return out

def snapPolygon (g : Grid) (rings : Array (Array Pt)) (levels : List Nat) (cfg : Config) :
    Except String (List (Nat × Array (Array (Array P)))) := do
  -- InsertPolygon
  let mut addrs : List Quad := []
  for r in rings do
    for v in r do
      match deepestAddr g v with
      | none => if cfg.ignoreOutside then return [] else throw "outside-grid"
      | some a => addrs := a :: addrs
  let hot := hotOf g addrs
  let mut st : Array LevelState := (levels.map fun l => ({ level := l } : LevelState)).toArray
  for ringIdx in [0 : rings.size] do
    if !(st.any (·.alive)) then continue
    let isOuter := ringIdx == 0
    let ring := ensureCorrectWindingOrder rings[ringIdx]! (!isOuter)
    let n := ring.size
    -- per level new ring
    let mut newRings : Array (Array P) := st.map fun _ => #[]
    for vi in [0 : n] do
      let seg : Seg := ⟨ring[vi]!, ring[(vi + 1) % n]!⟩
      for li in [0 : st.size] do
        if !st[li]!.alive then continue
        let l := st[li]!.level
        let quads : Array P := (snapLevel lineIntersects g hot seg l).toArray.map fun q => ((q.x : Int), (q.y : Int))
        -- checkPointHits for i > 0
        let mut ls := st[li]!
        for i in [1 : quads.size] do
          let v := quads[i]!
          let once := ls.hitOnce.get v
          if once.size > 0 then
            if !once.contains ringIdx then ls := { ls with hitOnce := ls.hitOnce.add v ringIdx }
            else if !(ls.hitMultiple.get v).contains ringIdx then ls := { ls with hitMultiple := ls.hitMultiple.add v ringIdx }
          else ls := { ls with hitOnce := ls.hitOnce.add v ringIdx }
        st := st.set! li ls
        -- cleanupNewVertices
        if quads.size == 0 then throw "no points found"
        let minus := min (quads.size - 1) 1
        let mut nv := quads.extract 0 (quads.size - minus)
        let cur := newRings[li]!
        if cur.size > 0 && nv[0]! == cur[cur.size - 1]! then nv := nv.extract 1 nv.size
        newRings := newRings.set! li (cur ++ nv)
    for li in [0 : st.size] do
      if !st[li]!.alive then continue
      let ls := st[li]!
      let sp ← cleanupNewRing newRings[li]! isOuter (fun p => (ls.hitMultiple.get p).contains ringIdx)
      if isOuter && sp.outers.size == 0 && (!cfg.keep || sp.pointsAndLines.size == 0) then
        st := st.set! li { ls with alive := false }
        continue
      let ls := { ls with outers := ls.outers ++ sp.outers, inners := ls.inners ++ sp.inners }
      let ls := if cfg.keep then { ls with pls := ls.pls ++ sp.pointsAndLines } else ls
      st := st.set! li ls
  let mut out : List (Nat × Array (Array (Array P))) := []
  for ls in st do
    let mut polys : Array (Array (Array P)) := #[]
    if ls.alive then
      let (o, i) ← dedupeInnersOuters ls.outers ls.inners
      polys := matchInnersToPolygons (o.map fun r => #[r]) i
      if cfg.reverse then polys := polys.map fun pg => pg.map Array.reverse
    -- points and lines are appended for every level that collected some (also levels no longer alive)
    for pl in ls.pls do polys := polys.push #[pl]
    if polys.size > 0 then out := out ++ [(ls.level, polys)]
  return out

end Texel
