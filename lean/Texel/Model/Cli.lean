/-! # Texel.Model.Cli — target path construction of `main.go` (core-only, executable)

`injectSuffixIntoPath` (`path.Split`, `path.Ext`, `path.Join`) followed by `fmt.Sprintf(fmt, tmID)`, on paths over a safe
alphabet: no `%`, and the directory part already clean (no `//`, `/./`, `/../`), so that `path.Join` only concatenates. -/
namespace Texel.Cli

/-- split at the last `/`: (dir including the slash, file) — `path.Split` -/
def splitPath (p : List Char) : List Char × List Char :=
  let r := p.reverse
  let file := (r.takeWhile (· ≠ '/')).reverse
  (p.take (p.length - file.length), file)

/-- `path.Ext`: the suffix beginning at the final dot of the file name, empty if there is none -/
def ext (file : List Char) : List Char :=
  if '.' ∈ file then '.' :: (file.reverse.takeWhile (· ≠ '.')).reverse else []

def stem (file : List Char) : List Char := file.take (file.length - (ext file).length)

/-- the path of the target file for tile matrix `id` -/
def targetPath (p : String) (id : Nat) : String :=
  let (dir, file) := splitPath p.toList
  String.ofList (dir ++ stem file ++ '_' :: (toString id).toList ++ ext file)

end Texel.Cli
