
namespace Texel
/-! Prototypes: C12 paging, C09 address computation (before and after the F2 repair). Core only. -/

/-! ## C12: `TargetGeopackage.WriteFeatures` paging -/

/-- pages written for stream `xs` with page size `p > 0`, `buf` = current buffer -/
def pagesGo (p : Nat) : List α → List α → List (List α)
  | [], buf => [buf]                                   -- channel closed: final flush, always (even if empty)
  | x :: xs, buf =>
    let buf' := buf ++ [x]
    if buf'.length % p = 0 then buf' :: pagesGo p xs [] else pagesGo p xs buf'

def pages (p : Nat) (xs : List α) : List (List α) := pagesGo p xs []

theorem pagesGo_flatten (p : Nat) (xs buf : List α) : (pagesGo p xs buf).flatten = buf ++ xs := by
  induction xs generalizing buf with
  | nil => simp [pagesGo]
  | cons x xs ih =>
    simp only [pagesGo]
    split
    · simp [ih]
    · rw [ih]; simp

/-- C12_concat: nothing lost, duplicated or reordered, for every count and page size -/
theorem C12_concat (p : Nat) (xs : List α) : (pages p xs).flatten = xs := by
  simp [pages, pagesGo_flatten]

theorem pagesGo_ne_nil (p : Nat) (xs buf : List α) : pagesGo p xs buf ≠ [] := by
  induction xs generalizing buf with
  | nil => simp [pagesGo]
  | cons x xs ih => simp only [pagesGo]; split <;> simp [ih]

theorem pagesGo_sizes (p : Nat) (hp : 0 < p) (xs buf : List α) (hb : buf.length < p) :
    ∀ pg ∈ (pagesGo p xs buf).dropLast, pg.length = p := by
  induction xs generalizing buf with
  | nil => simp [pagesGo]
  | cons x xs ih =>
    simp only [pagesGo]
    split
    · rename_i hmod
      intro pg hpg
      have hlen : (buf ++ [x]).length = p := by
        have h1 : (buf ++ [x]).length = buf.length + 1 := by simp
        have h2 : buf.length + 1 ≤ p := by omega
        rcases Nat.lt_or_ge (buf.length + 1) p with h | h
        · rw [h1, Nat.mod_eq_of_lt h] at hmod; omega
        · omega
      have hne : pagesGo p xs [] ≠ [] := pagesGo_ne_nil p xs []
      rw [List.dropLast_cons_of_ne_nil hne] at hpg
      rcases List.mem_cons.1 hpg with h | h
      · rw [h]; exact hlen
      · exact ih [] (by simpa using hp) pg h
    · rename_i hmod
      apply ih
      have h1 : (buf ++ [x]).length = buf.length + 1 := by simp
      rw [h1] at hmod ⊢
      rcases Nat.lt_or_ge (buf.length + 1) p with h | h
      · exact h
      · have : buf.length + 1 = p := by omega
        rw [this, Nat.mod_self] at hmod; exact absurd rfl hmod

/-- C12_sizes: every page but the last is full -/
theorem C12_sizes (p : Nat) (hp : 0 < p) (xs : List α) : ∀ pg ∈ (pages p xs).dropLast, pg.length = p :=
  pagesGo_sizes p hp xs [] (by simpa using hp)

example : pages 2 [1, 2, 3, 4] = [[1, 2], [3, 4], []] := by decide      -- exact multiple: an empty last transaction
example : pages 2 [1, 2, 3] = [[1, 2], [3]] := by decide
example : pages 3 ([] : List Nat) = [[]] := by decide

/-! ## C09: deepest address of a coordinate -/

/-- Go's `/` on int64 truncates toward zero: the unrepaired `InsertPoint` -/
def addrTrunc (minX res x : Int) : Int := Int.tdiv (x - minX) res
/-- repaired: floor division -/
def addrFloor (minX res x : Int) : Int := Int.fdiv (x - minX) res

def accepted (size : Nat) (a : Int) : Bool := decide (0 ≤ a) && decide (a ≤ (size : Int) - 1)

/-- the defect F2, as a theorem about the unrepaired model: a coordinate one unit left of the extent is accepted -/
theorem F2_witness : accepted 16 (addrTrunc 0 10 (-1)) = true := by decide

/-- C09_reject (after the repair): a coordinate left of the extent is never accepted -/
theorem C09_reject_left (minX res x : Int) (size : Nat) (hres : 0 < res) (hx : x < minX) :
    accepted size (addrFloor minX res x) = false := by
  unfold accepted addrFloor
  have : Int.fdiv (x - minX) res < 0 := by
    rw [Int.fdiv_eq_ediv_of_nonneg _ (Int.le_of_lt hres)]
    exact Int.ediv_neg_of_neg_of_pos (by omega) hres
  simp; omega

/-- C09_reject (right side): at or beyond `minX + size*res` is never accepted -/
theorem C09_reject_right (minX res x : Int) (size : Nat) (hres : 0 < res) (hx : minX + size * res ≤ x) :
    accepted size (addrFloor minX res x) = false := by
  unfold accepted addrFloor
  have h1 : (size : Int) ≤ Int.fdiv (x - minX) res := by
    rw [Int.fdiv_eq_ediv_of_nonneg _ (Int.le_of_lt hres)]
    exact Int.le_ediv_of_mul_le hres (by omega)
  simp; omega

#print axioms C12_concat
#print axioms C12_sizes
#print axioms C09_reject_left
#print axioms C09_reject_right

end Texel
