import Texel.Model.Geom
/-! # Texel.Model.Route — the quadtree descent of `pointindex.snapClosestPoints` (core-only, executable)

`findIntersectingQuadrants` (with `certain`/`mutex`), grid boxes and centroids, `snapLevel` (the descent),
deepest addresses (`InsertPoint`, floor division after the F2 repair) and the per-level hot sets (`insertCoord`). -/
namespace Texel

def getInfiniteQuadrant (p c : Pt) : Nat :=
  (if p.x ≥ c.x then 1 else 0) ||| (if p.y ≥ c.y then 2 else 0)

def quadrantsAreAdjacent (a b : Nat) : Bool := let d := a ^^^ b; d == 1 || d == 2
def adjacentQuadrantX (q : Nat) : Nat := q ^^^ 1
def adjacentQuadrantY (q : Nat) : Nat := q ^^^ 2

/-- parent box with half-span `h` (> 0): children are cut at the centroid -/
structure Parent where (x0 y0 h : Int) deriving Repr
def Parent.box (P : Parent) : Box := ⟨P.x0, P.y0, P.x0 + 2 * P.h, P.y0 + 2 * P.h⟩
def Parent.centroid (P : Parent) : Pt := ⟨P.x0 + P.h, P.y0 + P.h⟩
def Parent.child (P : Parent) (q : Nat) : Box :=
  let ox := if q &&& 1 = 1 then P.h else 0
  let oy := if q &&& 2 = 2 then P.h else 0
  ⟨P.x0 + ox, P.y0 + oy, P.x0 + ox + P.h, P.y0 + oy + P.h⟩

structure ToCheck where (i : Nat) (certain mutex : Bool)

/-- `lineIntersects` is a parameter here (its own correctness is `lineIntersects_iff`) -/
def findIntersectingQuadrants (li : Seg → Box → Bool) (L : Seg) (present : Nat → Bool) (P : Parent) : List Nat :=
  let c := P.centroid
  let q1 := getInfiniteQuadrant L.p1 c
  let in1 := containsPoint L.p1 P.box
  let q2 := getInfiniteQuadrant L.p2 c
  let in2 := containsPoint L.p2 P.box
  let toCheck : List ToCheck :=
    if q1 = q2 then
      (if in1 && in2 then [⟨q1, true, false⟩] else [⟨q1, false, false⟩])
    else if quadrantsAreAdjacent q1 q2 then
      (if in1 && in2 then [⟨q1, true, false⟩, ⟨q2, true, false⟩] else [⟨q1, false, false⟩, ⟨q2, false, false⟩])
    else
      [⟨q1, in1, false⟩, ⟨adjacentQuadrantX q1, false, true⟩, ⟨adjacentQuadrantY q1, false, true⟩, ⟨q2, in2, false⟩]
  let rec go (l : List ToCheck) (mutexed : Bool) : List Nat :=
    match l with
    | [] => []
    | t :: ts =>
      if t.mutex && mutexed then go ts mutexed
      else if !present t.i then go ts mutexed
      else if t.certain || li L (P.child t.i) then t.i :: go ts (mutexed || t.mutex)
      else go ts mutexed
  go toCheck false

-- the diagonal branch of the Go code written with 4 sub-cases is exactly `certain := inside`:
--   pt1 inside → {q1,true}; pt2 inside → {q2,true}; else false.

/-! ## the quadtree descent -/

structure Grid where
  minX : Int
  minY : Int
  res : Int
  depth : Nat
deriving Repr

/-- pixel span on level `l` (levels count from the root, `l ≤ depth`) -/
def Grid.span (g : Grid) (l : Nat) : Int := 2 ^ (g.depth - l) * g.res

structure Quad where (x y : Nat) deriving DecidableEq, Repr

def Grid.box (g : Grid) (l : Nat) (p : Quad) : Box :=
  ⟨g.minX + p.x * g.span l, g.minY + p.y * g.span l, g.minX + (p.x + 1) * g.span l, g.minY + (p.y + 1) * g.span l⟩

/-- `getQuadrantExtentAndCentroid`: the centroid handed out as the snapped coordinate (`span/2` with Go's integer division) -/
def Grid.centroid (g : Grid) (l : Nat) (p : Quad) : Pt :=
  ⟨g.minX + p.x * g.span l + g.span l / 2, g.minY + p.y * g.span l + g.span l / 2⟩

/-- the `Parent` view of quadrant `p` on level `l` (its half-span is the span of level `l+1`) -/
def Grid.parent (g : Grid) (l : Nat) (p : Quad) : Parent :=
  ⟨g.minX + p.x * g.span l, g.minY + p.y * g.span l, g.span (l + 1)⟩

/-- `getQuadrantZs` after the Morton abstraction (justified by the C17 theorems) -/
def Quad.child (p : Quad) (q : Nat) : Quad := ⟨2 * p.x + (q &&& 1), 2 * p.y + ((q >>> 1) &&& 1)⟩

/-- quadrants met on level `l`, in order; `hot l p` = the level-`l` map has an entry for `p` -/
def snapLevel (li : Seg → Box → Bool) (g : Grid) (hot : Nat → Quad → Bool) (L : Seg) : Nat → List Quad
  | 0 => if li L (g.box 0 ⟨0, 0⟩) then [⟨0, 0⟩] else []
  | l + 1 =>
    (snapLevel li g hot L l).flatMap fun p =>
      (findIntersectingQuadrants li L (fun q => hot (l + 1) (p.child q)) (g.parent l p)).map p.child

/-! ## the index: deepest addresses and hot sets -/

/-- deepest address of a coordinate pair after the F2 repair (floor division); `none` = OutsideGridError -/
def deepestAddr (g : Grid) (p : Pt) : Option Quad :=
  let ax := Int.fdiv (p.x - g.minX) g.res
  let ay := Int.fdiv (p.y - g.minY) g.res
  let size : Int := 2 ^ g.depth
  if ax < 0 ∨ ay < 0 ∨ ax > size - 1 ∨ ay > size - 1 then none else some ⟨ax.toNat, ay.toNat⟩

/-- `insertCoord`: the pixel of a deepest address on level `l` -/
def Quad.up (a : Quad) (g : Grid) (l : Nat) : Quad := ⟨a.x / 2 ^ (g.depth - l), a.y / 2 ^ (g.depth - l)⟩

/-- the per-level maps after inserting the addresses `addrs` -/
def hotOf (g : Grid) (addrs : List Quad) : Nat → Quad → Bool := fun l p => addrs.any fun a => a.up g l == p

end Texel
