import Texel.Model.Pipe
/-! # Texel.Model.Dispatch — what `processing.processFeatures` sends for one feature (core-only, executable)

`kind`: the geometry type of the source feature; `outcome`: for a polygon the list of (tile matrix id, number of polygons
returned) of the map `f(polygon, tmIDs)` returns; for a multipolygon one such list per part. Go iterates the map in random
order: the *set* of deliveries is what is modelled (the pipeline model sends pending items in any order). -/
namespace Texel.Pipe

inductive Kind where
  | polygon (outcome : List (TM × Nat))                 -- tile matrix id ↦ number of polygons returned for it
  | multiPolygon (parts : List (List (TM × Nat)))
  | other                                               -- point, line, …, empty geometry: copied to every target
deriving Repr

/-- the geometry a target receives for a feature: `orig` = the source geometry untouched, `poly` = the single polygon
returned, `multi n` = a multipolygon of the `n` returned polygons (in order) -/
inductive Geom where
  | orig
  | poly
  | multi (n : Nat)
deriving Repr, DecidableEq

def dedupKeys : List TM → List TM
  | [] => []
  | t :: ts => if t ∈ dedupKeys ts then dedupKeys ts else t :: dedupKeys ts

/-- keys of the Go map built by `processMultiPolygon`: ids for which some part returned at least one polygon -/
def multiKeys (parts : List (List (TM × Nat))) : List TM :=
  dedupKeys ((parts.flatten.filter fun e => e.2 ≠ 0).map (·.1))

def multiCount (parts : List (List (TM × Nat))) (tm : TM) : Nat :=
  ((parts.flatten.filter fun e => e.1 = tm).map (·.2)).sum

/-- the tile matrices that get a wrapped copy of the feature -/
def deliverKind (targets : List TM) : Kind → List TM
  | .other => targets
  | .polygon outcome => dedupKeys (outcome.map (·.1))
  | .multiPolygon parts => multiKeys parts

/-- the geometry of that copy; `none` = the "no new polygon for level" panic (a key with an empty list) -/
def geomKind (k : Kind) (tm : TM) : Option Geom :=
  match k with
  | .other => some .orig
  | .polygon outcome =>
    match (outcome.find? fun e => e.1 = tm) with
    | some (_, 0) => none
    | some (_, 1) => some .poly
    | some (_, n) => some (.multi n)
    | none => none
  | .multiPolygon parts => some (.multi (multiCount parts tm))

theorem dedupKeys_nodup (l : List TM) : (dedupKeys l).Nodup := by
  induction l with
  | nil => simp [dedupKeys]
  | cons t ts ih =>
    simp only [dedupKeys]
    split
    · exact ih
    · exact List.nodup_cons.2 ⟨by assumption, ih⟩

theorem mem_dedupKeys (l : List TM) (t : TM) : t ∈ dedupKeys l ↔ t ∈ l := by
  induction l with
  | nil => simp [dedupKeys]
  | cons x xs ih =>
    simp only [dedupKeys]
    split
    · rename_i h
      constructor
      · intro h1; exact List.mem_cons_of_mem _ (ih.1 h1)
      · intro h1
        rcases List.mem_cons.1 h1 with h2 | h2
        · subst h2; exact h
        · exact ih.2 h2
    · simp [ih]

end Texel.Pipe
