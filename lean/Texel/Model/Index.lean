import Texel.Gen.Morton
/-! # Texel.Model.Index — the Morton-keyed part of `pointindex` (core-only, executable)

`getQuadrantZs` over the *generated* `toZ`/`fromZ` (regenerated from `morton/morton.go` on every run). -/
namespace Texel

/-- `pointindex.getQuadrantZs`: keys of the four children, each with `ok` (`MustToZ` panics when `ok = false`) -/
def getQuadrantZs (parentZ : BitVec 64) : List (BitVec 64 × Bool) :=
  let (px, py) := Gen.Morton.fromZ parentZ
  [0, 1, 2, 3].map fun (i : Nat) =>
    Gen.Morton.toZ (px * 2#64 + BitVec.ofNat 64 (i &&& 1)) (py * 2#64 + BitVec.ofNat 64 ((i &&& 2) >>> 1))

end Texel
