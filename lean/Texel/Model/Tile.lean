/-! # Texel.Model.Tile — tile addressing of `tms20` in exact arithmetic (core-only, executable)

All quantities of one tile matrix — origin (already in x,y order), cell size, the point — are integers over one common
denominator (the harness scales the exact values of the floats), so no rounding happens in the model. -/
namespace Texel.Tile

structure Matrix where
  ox : Int
  oy : Int
  cs : Int          -- cell size (> 0)
  tw : Nat
  th : Nat
  mw : Nat
  mh : Nat
  corner : Nat      -- 0 topLeft, 1 bottomLeft
deriving Repr

def Matrix.tsx (m : Matrix) : Int := m.tw * m.cs
def Matrix.tsy (m : Matrix) : Int := m.th * m.cs

/-- `FromNative`: the tile (column, row) containing the point, `none` outside the matrix -/
def fromNative (m : Matrix) (px py : Int) : Option (Nat × Nat) :=
  let x := px - m.ox
  if x < 0 then none else
  let ux := (x / m.tsx).toNat
  if ux ≥ m.mw then none else
  let y := if m.corner = 0 then m.oy - py else py - m.oy
  if y < 0 then none else
  let uy := (y / m.tsy).toNat
  if uy ≥ m.mh then none else some (ux, uy)

/-- `ToNative`: the top-left corner of tile (c, r), in x,y order, for both corner-of-origin conventions -/
def toNative (m : Matrix) (c r : Nat) : Int × Int :=
  (m.ox + c * m.tsx, if m.corner = 0 then m.oy - r * m.tsy else m.oy + (r + 1) * m.tsy)

/-- `MatrixBoundingBox`: (bottom-left, top-right) -/
def bbox (m : Matrix) : (Int × Int) × (Int × Int) :=
  let w := m.mw * m.tsx
  let h := m.mh * m.tsy
  if m.corner = 0 then ((m.ox, m.oy - h), (m.ox + w, m.oy)) else ((m.ox, m.oy), (m.ox + w, m.oy + h))

end Texel.Tile
