import Texel.Model.Snap
import Texel.Model.SplitF
import Texel.Model.AssembleF
/-! # Texel.Model.SnapF — `snap.SnapPolygon` as a composition of functions (core-only, executable)

The same behaviour as the line-by-line transcription `Texel.snapPolygon` (`Model/Snap.lean`, kept as a reference and
compared with this one by the driver op `snapboth`), but written so that theorems can talk about it:

* the index is built first (`insertAll`), an outside vertex decides the whole call;
* every requested level is processed on its own (`processLevel`) — in the Go code the per-level state (`newRing[level]`,
  `hitOnce[level]`, `hitMultiple[level]`, `newOuters[level]` …) never mixes levels, and `len(levelMap) == 0` only skips
  work for levels that are all dead;
* per ring: normalise orientation, route every edge (`routeRing`), join (`joinChain` = `cleanupNewVertices`),
  repeated-vertex flags by counting (`isHitF`, the closed form of `checkPointHits`), then `cleanupNewRingF` (the functional `cleanupNewRing`/`splitRing`);
* per level: `dedupeF`, `matchF` (the decisions of `dedupeInnersOuters` and `matchInnersToPolygons`, applied functionally), reverse flag, points and lines appended. -/
namespace Texel

def Quad.toP (q : Quad) : P := ((q.x : Int), (q.y : Int))

/-- `InsertPolygon`: deepest addresses of all vertices, `none` if one lies outside the grid -/
def insertAll (g : Grid) (rings : List (List Pt)) : Option (List Quad) :=
  rings.flatten.mapM (deepestAddr g)

/-- `cleanupNewVertices`: `none` is the "no points found" panic -/
def cleanupNewVerticesF (nv : List P) (last : Option P) : Option (List P) :=
  match nv with
  | [] => none
  | _ :: _ =>
    let nv' := if 1 < nv.length then nv.dropLast else nv
    some (if nv'.head? = last ∧ last.isSome then nv'.tail else nv')

/-- the edges of a ring, closing edge included (`nextVertexIdx := (vertexIdx + 1) % ringLen`) -/
def ringEdges (ring : List Pt) : List Seg :=
  match ring with
  | [] => []
  | v :: vs => (List.zip ring (vs ++ [v])).map fun (a, b) => ⟨a, b⟩

/-- per edge of the ring the routed pixels of level `l` -/
def routeRing (g : Grid) (hot : Nat → Quad → Bool) (l : Nat) (ring : List Pt) : List (List P) :=
  (ringEdges ring).map fun s => (snapLevel lineIntersects g hot s l).map Quad.toP

/-- `newRing[level] = append(newRing[level], cleanupNewVertices(...)...)` over all edges -/
def joinChain (routed : List (List P)) : Option (List P) :=
  routed.foldlM (fun acc nv => (cleanupNewVerticesF nv acc.getLast?).map (acc ++ ·)) []

/-- the pixels `checkPointHits` is called with for one ring: every routed pixel but the first of each edge -/
def ringHits (routed : List (List P)) : List P := routed.flatMap List.tail

/-- closed form of `hitMultiple[level][vertex]` containing this ring: at least two hits by it -/
def isHitF (hits : List P) (p : P) : Bool := decide (2 ≤ hits.count p)

def ptsToPs (r : List Pt) : Array P := (r.map fun p => (p.x, p.y)).toArray

/-- `ensureCorrectWindingOrder` on a list -/
def normaliseRing (ring : List Pt) (shouldBeCW : Bool) : List Pt :=
  if windingOK (ptsToPs ring) shouldBeCW then ring else ring.reverse

/-- one ring on one level: orientation, routing, join, `cleanupNewRing` -/
def processRing (g : Grid) (hot : Nat → Quad → Bool) (l : Nat) (isOuter : Bool) (ring : List Pt) : Except String Split :=
  let routed := routeRing g hot l (normaliseRing ring (!isOuter))
  match joinChain routed with
  | none => .error "no points found"
  | some chain => cleanupNewRingF chain isOuter (isHitF (ringHits routed))

structure Acc where
  outers : Array (Array P) := #[]
  inners : Array (Array P) := #[]
  pls : Array (Array P) := #[]

def Acc.add (a : Acc) (sp : Split) (keep : Bool) : Acc :=
  { outers := a.outers ++ sp.outers, inners := a.inners ++ sp.inners,
    pls := if keep then a.pls ++ sp.pointsAndLines else a.pls }

/-- rings after the first are holes; each is cleaned up and appended -/
def processHoles (g : Grid) (hot : Nat → Quad → Bool) (l : Nat) (keep : Bool) : List (List Pt) → Acc → Except String Acc
  | [], a => .ok a
  | h :: hs, a => do
    let sp ← processRing g hot l false h
    processHoles g hot l keep hs (a.add sp keep)

abbrev Poly := Array (Array P)

/-- `dedupeInnersOuters` then `matchInnersToPolygons` (functional forms): the polygons of a level before the flags are applied -/
def assembleCore (a : Acc) : Except String (Array Poly) := do
  let (o, i) ← dedupeF a.outers a.inners
  return matchF (o.map fun r => #[r]) i

def reversePolys (polys : Array Poly) : Array Poly := polys.map fun pg => pg.map Array.reverse

/-- reverse flag, then points and lines appended as single-ring polygons; `none` = level absent from the result -/
def finishLevel (reverse : Bool) (core : Array Poly) (pls : Array (Array P)) : Option (Array Poly) :=
  let polys := (if reverse then reversePolys core else core) ++ pls.map fun pl => #[pl]
  if polys.size = 0 then none else some polys

/-- dedupe, match holes to shells, reverse flag, points and lines at the end; `none` = level absent from the result -/
def assembleLevel (cfg : Config) (a : Acc) : Except String (Option (Array Poly)) := do
  let core ← assembleCore a
  return finishLevel cfg.reverse core a.pls

/-- the rings of one level after clean-up, before assembly; `none` = the outer ring has become too small (`delete(levelMap, level)`) -/
def levelAcc (g : Grid) (hot : Nat → Quad → Bool) (keep : Bool) (l : Nat) (rings : List (List Pt)) : Except String (Option Acc) :=
  match rings with
  | [] => .ok (some {})
  | outer :: holes => do
    let sp ← processRing g hot l true outer
    if sp.outers.size = 0 ∧ (keep = false ∨ sp.pointsAndLines.size = 0) then
      return none
    let acc ← processHoles g hot l keep holes (({} : Acc).add sp keep)
    return some acc

/-- everything `addPointsAndSnap` does for one level; `none` = the level is absent from the result -/
def processLevel (g : Grid) (hot : Nat → Quad → Bool) (cfg : Config) (l : Nat) (rings : List (List Pt)) :
    Except String (Option (Array Poly)) := do
  match ← levelAcc g hot cfg.keep l rings with
  | none => return none
  | some acc => assembleLevel cfg acc

/-- all requested levels, each on its own -/
def processLevels (g : Grid) (hot : Nat → Quad → Bool) (cfg : Config) (rings : List (List Pt)) :
    List Nat → Except String (List (Nat × Array Poly))
  | [] => .ok []
  | l :: ls => do
    let r ← processLevel g hot cfg l rings
    let rest ← processLevels g hot cfg rings ls
    return match r with
      | none => rest
      | some polys => (l, polys) :: rest

/-- `snap.SnapPolygon` (levels instead of tile matrix ids; `tileMatrixIDsByLevels` is a bijection on the requested ids) -/
def snapPolygonF (g : Grid) (rings : List (List Pt)) (levels : List Nat) (cfg : Config) :
    Except String (List (Nat × Array Poly)) :=
  match insertAll g rings with
  | none => if cfg.ignoreOutside then .ok [] else .error "outside-grid"
  | some addrs => processLevels g (hotOf g addrs) cfg rings levels

end Texel
