def hello := "world"
