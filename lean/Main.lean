import Texel.Model.SnapF
import Texel.Model.Index
import Texel.Model.Small
import Texel.Model.Pipe
import Texel.Model.Dispatch
import Texel.Model.Cli
import Texel.Model.QuadTree
import Texel.Model.Tile
import Texel.Model.TmsJson
import Lean.Data.Json
/-! `texeldrv`: the executable model behind a one-line-in, one-line-out protocol (core-only, links as `lean_exe`).
The Go harness sends the same operation lines to the real code and to this driver and compares the answers. -/
open Texel

def parseInts (ws : List String) : Array Int := (ws.filterMap String.toInt?).toArray
def toPs (a : Array Int) : Array P := Id.run do
  let mut r := #[]
  for i in [0 : a.size / 2] do r := r.push (a[2*i]!, a[2*i+1]!)
  return r
def toPts (a : Array Int) : Array Pt := (toPs a).map fun p => ⟨p.1, p.2⟩
def showRing (r : Array P) : String := " ".intercalate (r.toList.map fun p => s!"{p.1},{p.2}")
def showRings (rs : Array (Array P)) : String := "[" ++ "|".intercalate (rs.toList.map showRing) ++ "]"
def showQuads (qs : List Quad) : String := " ".intercalate (qs.map fun q => s!"{q.x},{q.y}")

/-- `snap`/`chains` share their arguments: depth minX minY res keep reverse ignoreOutside nlev levels... nrings (n x y ...)* -/
def snapOp (rest : List String) (mode : Nat) : String :=
  let xs := parseInts rest
  if xs.size < 9 then "bad-op" else
  let g : Grid := ⟨xs[1]!, xs[2]!, xs[3]!, xs[0]!.toNat⟩
  let cfg : Config := ⟨xs[4]! == 1, xs[5]! == 1, xs[6]! == 1⟩
  let nlev := xs[7]!.toNat
  let levels := ((xs.extract 8 (8 + nlev)).toList.map Int.toNat)
  let nr := xs[8 + nlev]!.toNat
  let (rings, _) := Id.run do
    let mut pos := 9 + nlev
    let mut rings : Array (Array Pt) := #[]
    for _ in [0 : nr] do
      let n := xs[pos]!.toNat
      rings := rings.push (toPts (xs.extract (pos + 1) (pos + 1 + 2 * n)))
      pos := pos + 1 + 2 * n
    return (rings, pos)
  if mode == 1 then
    match routedChains g rings levels with
    | .ok res => "ok " ++ " ".intercalate (res.map fun (l, chains) => s!"L{l}:[" ++ "|".intercalate (chains.toList.map showRing) ++ "]")
    | .error e => "panic " ++ e
  else
  let render (r : Except String (List (Nat × Array (Array (Array P))))) : String :=
    match r with
    | .ok res =>
      let sorted := res.toArray.qsort (fun a b => a.1 < b.1)
      "ok " ++ " ".intercalate (sorted.toList.map fun (l, polys) =>
        s!"L{l}:[" ++ ";".intercalate (polys.toList.map fun pg => "|".intercalate (pg.toList.map showRing)) ++ "]")
    | .error e => "panic " ++ e
  let ringsL := rings.toList.map Array.toList
  match mode with
  | 0 => render (snapPolygonF g ringsL levels cfg)          -- the functional model (the one the theorems are about)
  | 2 => render (snapPolygon g rings levels cfg)            -- the line-by-line reference transcription
  | _ => if render (snapPolygonF g ringsL levels cfg) == render (snapPolygon g rings levels cfg) then "same" else "differ"

/-- `pipe`/`piperun`: ntargets t₁…tₙ nfeat (k id₁…id_k)*  — the tile matrices every feature is delivered to -/
def parsePipe (xs : Array Int) : Option (Pipe.Cfg × List Nat) := Id.run do
  if xs.size < 2 then return none
  let nt := xs[0]!.toNat
  let targets := (xs.extract 1 (1 + nt)).toList.map Int.toNat
  let nf := xs[1 + nt]!.toNat
  let mut pos := 2 + nt
  let mut del : Array (List Nat) := #[]
  for _ in [0 : nf] do
    let k := xs[pos]!.toNat
    del := del.push ((xs.extract (pos + 1) (pos + 1 + k)).toList.map Int.toNat)
    pos := pos + 1 + k
  return some (⟨targets, fun f => del.getD f []⟩, List.range nf)

def showReceived (c : Pipe.Cfg) (recv : Nat → List Pipe.Item) : String :=
  " ".intercalate (c.targets.map fun tm => s!"{tm}:[" ++ ",".intercalate ((recv tm).map fun it => toString it.1) ++ "]")

/-- all actions that could be enabled in a state -/
def pipeActions (c : Pipe.Cfg) (s : Pipe.State) : List Pipe.Action :=
  let snapSends := match s.snapper with
    | .pending items => (List.range items.length).map Pipe.Action.snapSend
    | _ => []
  let closes := match s.router with
    | .closing todo => (List.range todo.length).map Pipe.Action.routeClose
    | _ => []
  [.readSend, .readClose, .snapClose, .routeSend, .routeStartClose, .routeWait, .routeFinish, .mainReturn]
    ++ snapSends ++ closes ++ c.targets.map Pipe.Action.writerFinish

/-- run the state machine under a pseudo-random schedule until no step is enabled -/
def pipeRun (c : Pipe.Cfg) (fs : List Nat) (seed : Nat) : Pipe.State × Nat := Id.run do
  let mut s := Pipe.init fs
  let mut rnd := seed
  let mut steps := 0
  for _ in [0 : 100000] do
    let enabled := (pipeActions c s).filterMap fun a => (Pipe.step c s a)
    if enabled.isEmpty then break
    rnd := (rnd * 6364136223846793005 + 1442695040888963407) % 18446744073709551616
    s := enabled.getD ((rnd / 65536) % enabled.length) s
    steps := steps + 1
  return (s, steps)

/-- `isquad n (id idText mw mh tw th nvar oxN oxD oyN oyD corner csN csD)*` (idText `~` = empty) -/
def parseTMs (ws : List String) : Option (List QT.TM) := do
  let n ← (← ws.head?).toNat?
  let toks := ws.tail.toArray
  if toks.size != 14 * n then none
  let mut out : List QT.TM := []
  for i in [0 : n] do
    let t (k : Nat) : String := toks[14 * i + k]!
    let int (k : Nat) : Option Int := (t k).toInt?
    let tm : QT.TM := {
      id := ← int 0, idText := if t 1 == "~" then "" else t 1, mw := (← int 2).toNat, mh := (← int 3).toNat, tw := (← int 4).toNat, th := (← int 5).toNat,
      nvar := (← int 6).toNat, ox := (← int 7, ← int 8), oy := (← int 9, ← int 10), corner := (← int 11).toNat, csNum := ← int 12, csDen := ← int 13 }
    out := out ++ [tm]
  return out

partial def toTJ : Lean.Json → TJ.J
  | .null => .null
  | .bool b => .bool b
  | .num n => .num ⟨n.mantissa, n.exponent⟩
  | .str s => .str s
  | .arr xs => .arr (xs.toList.map toTJ)
  | .obj kvs => .obj (kvs.toList.map fun (k, v) => (k, toTJ v))

partial def ofTJ : TJ.J → Lean.Json
  | .null => .null
  | .bool b => .bool b
  | .num n => .num ⟨n.m, n.e⟩
  | .str s => .str s
  | .arr xs => .arr (xs.map ofTJ).toArray
  | .obj kvs => Lean.Json.mkObj (kvs.map fun (k, v) => (k, ofTJ v))

def handle (line : String) : String :=
  if line.startsWith "tmsdoc " then
    match Lean.Json.parse (line.drop 7).toString with
    | .error _ => "err"
    | .ok j => match TJ.decode (toTJ j) with
      | .error _ => "err"
      | .ok t => "ok " ++ (ofTJ (TJ.encode t)).compress
  else
  match line.trimAscii.toString.splitOn " " with
  | ["tz", xs, ys] =>
    match xs.toNat?, ys.toNat? with
    | some x, some y =>
      let (z, ok) := Gen.Morton.toZ (BitVec.ofNat 64 x) (BitVec.ofNat 64 y)
      let (fx, fy) := Gen.Morton.fromZ z
      s!"{z.toNat} {if ok then 1 else 0} {fx.toNat} {fy.toNat}"
    | _, _ => "bad-op"
  | ["gqz", zs] =>
    match zs.toNat? with
    | some z => " ".intercalate ((getQuadrantZs (BitVec.ofNat 64 z)).map fun (k, ok) => if ok then s!"{k.toNat}" else "panic")
    | none => "bad-op"
  | "li" :: rest =>
    let xs := parseInts rest
    if xs.size != 8 then "bad-op" else
    if lineIntersects ⟨⟨xs[0]!, xs[1]!⟩, ⟨xs[2]!, xs[3]!⟩⟩ ⟨xs[4]!, xs[5]!, xs[6]!, xs[7]!⟩ then "1" else "0"
  | "addr" :: rest =>
    let xs := parseInts rest
    if xs.size != 6 then "bad-op" else
    match deepestAddr ⟨xs[1]!, xs[2]!, xs[3]!, xs[0]!.toNat⟩ ⟨xs[4]!, xs[5]!⟩ with
    | some a => s!"{a.x} {a.y}"
    | none => "outside"
  | "quad" :: rest =>
    -- depth minX minY res level x y  ->  extent and centroid
    let xs := parseInts rest
    if xs.size != 7 then "bad-op" else
    let g : Grid := ⟨xs[1]!, xs[2]!, xs[3]!, xs[0]!.toNat⟩
    let b := g.box xs[4]!.toNat ⟨xs[5]!.toNat, xs[6]!.toNat⟩
    let c := g.centroid xs[4]!.toNat ⟨xs[5]!.toNat, xs[6]!.toNat⟩
    s!"{b.minX} {b.minY} {b.maxX} {b.maxY} {c.x} {c.y}"
  | "route" :: rest =>
    -- depth minX minY res x1 y1 x2 y2 nlev levels... nhot (ax ay)*   (hot = deepest addresses)
    let xs := parseInts rest
    if xs.size < 10 then "bad-op" else
    let g : Grid := ⟨xs[1]!, xs[2]!, xs[3]!, xs[0]!.toNat⟩
    let seg : Seg := ⟨⟨xs[4]!, xs[5]!⟩, ⟨xs[6]!, xs[7]!⟩⟩
    let nlev := xs[8]!.toNat
    let levels := (xs.extract 9 (9 + nlev)).toList.map Int.toNat
    let nhot := xs[9 + nlev]!.toNat
    let addrs := ((toPs (xs.extract (10 + nlev) (10 + nlev + 2 * nhot))).toList.map fun p => (⟨p.1.toNat, p.2.toNat⟩ : Quad))
    let hot := hotOf g addrs
    " ".intercalate (levels.map fun l => s!"L{l}:[" ++ showQuads (snapLevel lineIntersects g hot seg l) ++ "]")
  | "kmp" :: rest =>
    -- hypothesis `KmpRangesForward` (Proofs/NoTwice.lean) evaluated on this ring: a range running backwards answers differently from any implementation answer
    let ring := toPs (parseInts rest)
    if !rangesForwardB ring then "model-hypothesis-KmpRangesForward-fails: a range recorded for RemoveSequences runs backwards" else
    match kmpDeduplicate ring with
    | .ok r => "ok " ++ showRing r
    | .error e => "panic " ++ e
  | "split" :: o :: nflag :: rest =>
    let xs := parseInts rest
    let nf := nflag.toNat!
    let flags := toPs (xs.extract 0 (2 * nf))
    let ring := toPs (xs.extract (2 * nf) xs.size)
    let sh (r : Except String Split) : String := match r with
      | .ok s => s!"ok O{showRings s.outers} I{showRings s.inners} PL{showRings s.pointsAndLines}"
      | .error e => "panic " ++ e
    -- the functional form (the one the theorems are about) and the transcription must agree; the harness compares the answer with the real code
    let a := sh (cleanupNewRingF ring.toList (o == "1") (fun p => flags.contains p))
    let b := sh (cleanupNewRing ring (o == "1") (fun p => flags.contains p))
    if a == b || (a.startsWith "panic" && b.startsWith "panic") then a else s!"MODELS-DISAGREE functional={a} reference={b}"
  | "snap" :: rest => snapOp rest 0
  | "chains" :: rest => snapOp rest 1
  | "snapref" :: rest => snapOp rest 2
  | "snapboth" :: rest => snapOp rest 3
  | "pipe" :: rest =>
    match parsePipe (parseInts rest) with
    | some (c, fs) => showReceived c (fun tm => Pipe.expected c fs tm)
    | none => "bad-op"
  | "piperun" :: seed :: rest =>
    match parsePipe (parseInts rest), seed.toNat? with
    | some (c, fs), some sd =>
      let (s, _) := pipeRun c fs sd
      (if s.returned && c.targets.all (fun tm => s.wDone tm) then "returned " else "stuck ") ++ showReceived c s.received
    | _, _ => "bad-op"
  | "isquad" :: rest =>
    match parseTMs rest with
    | some tms => match QT.isQuadTree tms with
      | none => "ok"
      | some k => s!"err {k}"
    | none => "bad-op"
  | "tile" :: rest =>
    -- px py ox oy cs tw th mw mh corner   (the first five over one common denominator)
    let xs := parseInts rest
    if xs.size != 10 then "bad-op" else
    let m : Tile.Matrix := ⟨xs[2]!, xs[3]!, xs[4]!, xs[5]!.toNat, xs[6]!.toNat, xs[7]!.toNat, xs[8]!.toNat, xs[9]!.toNat⟩
    match Tile.fromNative m xs[0]! xs[1]! with
    | some (c, r) => s!"{c} {r}"
    | none => "none"
  | ["tpath", p, ids] =>
    match ids.toNat? with
    | some id => Cli.targetPath p id
    | none => "bad-op"
  | ["page", ps, ns] =>
    match ps.toNat?, ns.toNat? with
    | some p, some n =>
      if p == 0 then "panic division by zero" else
      " ".intercalate ((pages p (List.range n)).map fun pg => toString pg.length)
    | _, _ => "bad-op"
  | _ => "bad-op"

partial def loop (hin : IO.FS.Stream) (hout : IO.FS.Stream) : IO Unit := do
  let line ← hin.getLine
  if line.isEmpty then return ()
  hout.putStrLn (handle line)
  hout.flush
  loop hin hout

def main : IO Unit := do loop (← IO.getStdin) (← IO.getStdout)
