import Texel.Proofs.Route3
import Texel.Proofs.Pipe
import Texel.Proofs.Morton
import Texel.Proofs.Shrink
import Texel.Model.Small
import Texel.Model.RingF
import Texel.Model.Snap
